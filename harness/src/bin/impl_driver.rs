//! `impl_driver`: runs the real `asefile` implementation (/repo) and prints
//! integer-line observations (format: /verif/tools/SCHEMA.md).
//!
//! Modes (see README.md):
//!   impl_driver observe --level <mask> [--max-frames N] [--max-layers M] <listfile>
//!   impl_driver sched   <casefile>
//!   impl_driver alloc   <listfile>
//!   impl_driver threads --level <mask> [--max-frames N] [--max-layers M] <listfile>
//!   impl_driver util    <casefile>
//!
//! General rules: every input is processed on a freshly spawned thread with a
//! 2 MiB stack inside `catch_unwind`; the panic hook is silent; stdout goes
//! through a `BufWriter` which is flushed after every `#BEGIN i` and `#END i`.

use std::io::{self, BufReader, BufWriter, Cursor, Read, Write};
use std::path::Path;
use std::process::exit;
use std::sync::atomic::Ordering;
use std::sync::{Arc, Barrier};

use asefile::util::{extrude_border, to_indexed_image, MappingOptions, PaletteMapper};
use asefile::{AsepriteFile, AsepriteParseError};
use asefile_harness::*;
use image::RgbaImage;

/// The counting allocator is always installed in this binary; it only counts
/// while `ENABLED` is set (`alloc` mode).
#[global_allocator]
static GLOBAL: CountingAlloc = CountingAlloc;

type Out = BufWriter<io::Stdout>;

fn usage() -> ! {
    eprintln!(
        "usage:\n  impl_driver observe --level <mask> [--max-frames N] [--max-layers M] <listfile>\n  \
         impl_driver sched <casefile>\n  impl_driver alloc <listfile>\n  \
         impl_driver threads --level <mask> [--max-frames N] [--max-layers M] <listfile>\n  \
         impl_driver util <casefile>"
    );
    exit(2)
}

/// Seconds since the driver began work on the current input (0 = idle); see `watchdog`.
static INPUT_STARTED: std::sync::atomic::AtomicU64 = std::sync::atomic::AtomicU64::new(0);

fn now_s() -> u64 {
    std::time::SystemTime::now().duration_since(std::time::UNIX_EPOCH).map(|d| d.as_secs()).unwrap_or(0)
}

/// "Fails to return" must not cost a whole shard timeout: when one input has been in work for VERIF_WATCHDOG_S seconds
/// (default 420) the driver reports it as lost and exits; the orchestrator restarts the shard behind that input.
fn watchdog() {
    let limit: u64 = std::env::var("VERIF_WATCHDOG_S").ok().and_then(|v| v.parse().ok()).unwrap_or(420);
    std::thread::spawn(move || loop {
        std::thread::sleep(std::time::Duration::from_secs(1));
        let t = INPUT_STARTED.load(Ordering::SeqCst);
        if t != 0 && now_s().saturating_sub(t) > limit {
            println!("1 9\n# watchdog: no result after {} s (the call did not return)", limit);
            std::process::exit(3);
        }
    });
}

fn main() {
    install_quiet_panic_hook();
    asefile_harness::install_discard_logger();
    watchdog();
    let args: Vec<String> = std::env::args().skip(1).collect();
    if args.is_empty() {
        usage();
    }
    let mut out: Out = BufWriter::new(io::stdout());
    let r = match args[0].as_str() {
        "observe" => {
            let (opts, file) = parse_obs_args(&args[1..]);
            mode_observe(&mut out, &opts, &file)
        }
        "threads" => {
            let (opts, file) = parse_obs_args(&args[1..]);
            mode_threads(&mut out, &opts, &file)
        }
        "sched" if args.len() == 2 => mode_sched(&mut out, &args[1]),
        "alloc" if args.len() == 2 => mode_alloc(&mut out, &args[1]),
        "util" if args.len() == 2 => mode_util(&mut out, &args[1]),
        _ => usage(),
    };
    let r = r.and_then(|_| out.flush());
    if let Err(e) = r {
        // e.g. the orchestrator closed the pipe
        eprintln!("impl_driver: output error: {}", e);
        exit(1);
    }
}

/// Parse `--level <mask> [--max-frames N] [--max-layers M] <listfile>`.
fn parse_obs_args(args: &[String]) -> (ObsOpts, String) {
    let mut level: Option<u32> = None;
    let mut max_frames: Option<u64> = None;
    let mut max_layers: Option<u64> = None;
    let mut file: Option<String> = None;
    let mut i = 0;
    while i < args.len() {
        let value = |i: usize| -> &str {
            match args.get(i + 1) {
                Some(v) => v.as_str(),
                None => usage(),
            }
        };
        match args[i].as_str() {
            "--level" => {
                level = Some(value(i).parse().unwrap_or_else(|_| usage()));
                i += 2;
            }
            "--max-frames" => {
                max_frames = Some(value(i).parse().unwrap_or_else(|_| usage()));
                i += 2;
            }
            "--max-layers" => {
                max_layers = Some(value(i).parse().unwrap_or_else(|_| usage()));
                i += 2;
            }
            other if file.is_none() && !other.starts_with("--") => {
                file = Some(other.to_string());
                i += 1;
            }
            _ => usage(),
        }
    }
    match (level, file) {
        (Some(level), Some(file)) => (
            ObsOpts {
                level,
                max_frames,
                max_layers,
            },
            file,
        ),
        _ => usage(),
    }
}

/// Non-empty lines of a list / case file.
fn read_lines(path: &str) -> Vec<String> {
    match std::fs::read_to_string(path) {
        Ok(s) => s
            .lines()
            .map(|l| l.trim_end_matches('\r').to_string())
            .filter(|l| !l.trim().is_empty())
            .collect(),
        Err(e) => {
            eprintln!("impl_driver: cannot read {}: {}", path, e);
            exit(2)
        }
    }
}

fn begin(out: &mut Out, i: usize) -> io::Result<()> {
    writeln!(out, "#BEGIN {}", i)?;
    INPUT_STARTED.store(now_s().max(1), Ordering::SeqCst);
    out.flush()
}

fn end(out: &mut Out, i: usize) -> io::Result<()> {
    INPUT_STARTED.store(0, Ordering::SeqCst);
    writeln!(out, "#END {}", i)?;
    out.flush()
}

/// The lines for an input file the harness itself could not read: reported
/// like the `IoError` the library would have produced for it.
fn unreadable(path: &str, e: &io::Error) -> String {
    format!(
        "1 4\n# harness: cannot read {}: {}\n",
        one_line(path),
        one_line(&e.to_string())
    )
}

/// `1 c` + `# <Display>` for a failed load.
fn error_lines(e: &AsepriteParseError) -> String {
    format!("1 {}\n# {}\n", error_code(e), one_line(&e.to_string()))
}

// ===========================================================================
// observe
// ===========================================================================

/// The complete block text of one input (load + observation).
fn observe_one(path: &str, opts: &ObsOpts) -> String {
    let data = match std::fs::read(path) {
        Ok(d) => d,
        Err(e) => return unreadable(path, &e),
    };
    match AsepriteFile::read(&data[..]) {
        Err(e) => error_lines(&e),
        Ok(file) => {
            let obs = observe_file(&file, opts);
            let mut s = String::from("1 0\n");
            s.push_str(&obs.text);
            if let Some((_bit, msg)) = obs.panic {
                s.push_str(&format!("# panic: {}\n", msg));
            }
            // The sprite stays alive until the next one has been loaded and observed on this thread: two sprites of one
            // process exist side by side, as they do in an application (anything shared between live sprites shows up).
            PREVIOUS.with(|p| *p.borrow_mut() = Some(file));
            s
        }
    }
}

thread_local! {
    static PREVIOUS: std::cell::RefCell<Option<AsepriteFile>> = std::cell::RefCell::new(None);
}

/// All inputs of the list are processed one after the other on the driver's shared worker thread (see
/// `on_shared_worker`); `VERIF_FRESH_THREADS=1` gives every input a thread of its own.
fn mode_observe(out: &mut Out, opts: &ObsOpts, listfile: &str) -> io::Result<()> {
    for (i, path) in read_lines(listfile).into_iter().enumerate() {
        begin(out, i)?;
        let opts = *opts;
        let block = on_shared_worker(move || observe_one(&path, &opts));
        match block {
            Ok(text) => out.write_all(text.as_bytes())?,
            // Only the load itself runs outside the per-section catch_unwind.
            Err(msg) => write!(out, "1 9\n# panic: {}\n", msg)?,
        }
        end(out, i)?;
    }
    Ok(())
}

// ===========================================================================
// sched
// ===========================================================================

/// xorshift64* pseudo random numbers.
struct XorShift64Star(u64);

impl XorShift64Star {
    fn new(seed: u64) -> Self {
        // The all-zero state is a fixed point of xorshift; replace it.
        XorShift64Star(if seed == 0 { 0x9E37_79B9_7F4A_7C15 } else { seed })
    }
    fn next(&mut self) -> u64 {
        let mut x = self.0;
        x ^= x >> 12;
        x ^= x << 25;
        x ^= x >> 27;
        self.0 = x;
        x.wrapping_mul(0x2545_F491_4F6C_DD1D)
    }
}

// NOTE: all custom readers implement ONLY `read()`; `read_exact`,
// `read_to_end`, ... are the default implementations of the `Read` trait.

/// Delivers at most one byte per `read()` call.
struct OneByteReader<'a> {
    data: &'a [u8],
    pos: usize,
}

impl Read for OneByteReader<'_> {
    fn read(&mut self, buf: &mut [u8]) -> io::Result<usize> {
        if buf.is_empty() || self.pos >= self.data.len() {
            return Ok(0);
        }
        buf[0] = self.data[self.pos];
        self.pos += 1;
        Ok(1)
    }
}

/// Delivers a pseudo-random number of bytes in `1..=maxlen` per call (never
/// more than the caller's buffer or the remaining data).  With `interrupt`
/// set, calls number 1, 3, 5, ... fail with `ErrorKind::Interrupted` and
/// consume nothing (the generator is not advanced by those calls either).
struct ChunkReader<'a> {
    data: &'a [u8],
    pos: usize,
    rng: XorShift64Star,
    maxlen: u64,
    interrupt: bool,
    calls: u64,
}

impl Read for ChunkReader<'_> {
    fn read(&mut self, buf: &mut [u8]) -> io::Result<usize> {
        self.calls += 1;
        if self.interrupt && self.calls % 2 == 1 {
            return Err(io::Error::new(io::ErrorKind::Interrupted, "injected interrupt"));
        }
        let remaining = self.data.len() - self.pos;
        if buf.is_empty() || remaining == 0 {
            return Ok(0);
        }
        let want = 1 + self.rng.next() % self.maxlen.max(1);
        let n = (want.min(usize::MAX as u64) as usize)
            .min(buf.len())
            .min(remaining);
        buf[..n].copy_from_slice(&self.data[self.pos..self.pos + n]);
        self.pos += n;
        Ok(n)
    }
}

/// Delivers full requests but never past absolute offset `limit`; once `limit`
/// bytes were delivered every further call fails with `kind`.  `limit` is
/// `min(offset, data.len())`: an offset beyond the end of the data makes the
/// error appear exactly when the parser reads past the end.
struct HardFaultReader<'a> {
    data: &'a [u8],
    pos: usize,
    limit: usize,
    kind: io::ErrorKind,
}

impl Read for HardFaultReader<'_> {
    fn read(&mut self, buf: &mut [u8]) -> io::Result<usize> {
        if self.pos >= self.limit {
            return Err(io::Error::new(self.kind, "injected"));
        }
        let n = buf.len().min(self.limit - self.pos);
        buf[..n].copy_from_slice(&self.data[self.pos..self.pos + n]);
        self.pos += n;
        Ok(n)
    }
}

/// Like `HardFaultReader`, but the error is reported exactly once: the call
/// that would deliver the byte at `limit` fails with `kind`, every later call
/// succeeds again (a transient fault such as `WouldBlock` / `TimedOut` on a
/// socket).  The library must still return that error (only `Interrupted` is
/// retried by `read_exact`).
struct OnceFaultReader<'a> {
    data: &'a [u8],
    pos: usize,
    limit: usize,
    kind: io::ErrorKind,
    fired: bool,
}

impl Read for OnceFaultReader<'_> {
    fn read(&mut self, buf: &mut [u8]) -> io::Result<usize> {
        if !self.fired && self.pos >= self.limit {
            self.fired = true;
            return Err(io::Error::new(self.kind, "injected once"));
        }
        let end = if self.fired { self.data.len() } else { self.limit };
        let n = buf.len().min(end - self.pos);
        buf[..n].copy_from_slice(&self.data[self.pos..self.pos + n]);
        self.pos += n;
        Ok(n)
    }
}

/// Run one `sched` case: load `path` through the reader described by `kind`.
fn sched_load(path: &str, kind: &[String]) -> Result<AsepriteFile, AsepriteParseError> {
    let arg = |k: usize| -> u64 {
        kind.get(k)
            .and_then(|s| s.parse::<u64>().ok())
            .unwrap_or_else(|| panic!("harness: bad or missing argument {} in sched case", k))
    };
    let name = kind.first().map(|s| s.as_str()).unwrap_or("");
    if name == "file" {
        return AsepriteFile::read_file(Path::new(path));
    }
    if name == "pipe" {
        // read_file on a path that is readable but NOT seekable and has no length: the read end of a pipe, named through
        // /proc/self/fd, fed with the bytes of the file by another thread
        use std::os::fd::AsRawFd;
        let data = std::fs::read(path).map_err(AsepriteParseError::IoError)?;
        let (reader, mut writer) = std::io::pipe().map_err(AsepriteParseError::IoError)?;
        let feeder = std::thread::spawn(move || {
            use std::io::Write;
            let _ = writer.write_all(&data);
        });
        let p = format!("/proc/self/fd/{}", reader.as_raw_fd());
        let r = AsepriteFile::read_file(Path::new(&p));
        drop(reader);
        let _ = feeder.join();
        return r;
    }
    // Every other kind works on the bytes of the file.  A file the harness
    // cannot read is reported like the library would report it.
    let data = std::fs::read(path).map_err(AsepriteParseError::IoError)?;
    match name {
        "plain" => AsepriteFile::read(&data[..]),
        "one" => AsepriteFile::read(OneByteReader {
            data: &data,
            pos: 0,
        }),
        "chunks" | "intr" => AsepriteFile::read(ChunkReader {
            data: &data,
            pos: 0,
            rng: XorShift64Star::new(arg(1)),
            maxlen: arg(2),
            interrupt: name == "intr",
            calls: 0,
        }),
        "hard" => AsepriteFile::read(HardFaultReader {
            data: &data,
            pos: 0,
            limit: (arg(1).min(data.len() as u64)) as usize,
            kind: iokind_from_code(arg(2) as u32),
        }),
        "once" => AsepriteFile::read(OnceFaultReader {
            data: &data,
            pos: 0,
            limit: (arg(1).min(data.len() as u64)) as usize,
            kind: iokind_from_code(arg(2) as u32),
            fired: false,
        }),
        "cursor" => AsepriteFile::read(Cursor::new(data.clone())),
        "bufreader" => {
            let cap = arg(1) as usize;
            AsepriteFile::read(BufReader::with_capacity(cap, Cursor::new(data)))
        }
        "chain" => {
            let split = (arg(1).min(data.len() as u64)) as usize;
            AsepriteFile::read((&data[..split]).chain(&data[split..]))
        }
        other => panic!("harness: unknown sched kind '{}'", other),
    }
}

fn mode_sched(out: &mut Out, casefile: &str) -> io::Result<()> {
    for (i, line) in read_lines(casefile).into_iter().enumerate() {
        begin(out, i)?;
        let block = on_shared_worker(move || {
            let words: Vec<String> = line.split_whitespace().map(|s| s.to_string()).collect();
            let path = &words[0];
            let mut s = String::new();
            match sched_load(path, &words[1..]) {
                Ok(file) => {
                    // 31 h1 h2: hash of the observation at level STRUCT|FRAMES
                    let opts = ObsOpts {
                        level: STRUCT | FRAMES,
                        max_frames: None,
                        max_layers: None,
                    };
                    let obs = observe_file(&file, &opts);
                    let (h1, h2) = hash_halves(&obs.text);
                    s.push_str(&format!("1 0\n31 {} {}\n", h1, h2));
                    if let Some((bit, msg)) = obs.panic {
                        s.push_str(&format!("# panic in section {}: {}\n", bit, msg));
                    }
                }
                Err(e) => {
                    s.push_str(&error_lines(&e));
                    if let AsepriteParseError::IoError(ioe) = &e {
                        // 30 iokind has_source source_iokind
                        let kind = iokind_code(ioe.kind());
                        let (has_source, source_kind) = match std::error::Error::source(&e) {
                            None => (0, 0),
                            Some(src) => (
                                1,
                                src.downcast_ref::<io::Error>()
                                    .map_or(0, |x| iokind_code(x.kind())),
                            ),
                        };
                        s.push_str(&format!("30 {} {} {}\n", kind, has_source, source_kind));
                    }
                }
            }
            s
        });
        match block {
            Ok(text) => out.write_all(text.as_bytes())?,
            Err(msg) => write!(out, "1 9\n# panic: {}\n", msg)?,
        }
        end(out, i)?;
    }
    Ok(())
}

// ===========================================================================
// alloc
// ===========================================================================

/// Bytes that earlier loads of this process left allocated after their result was dropped.
static CARRIED: std::sync::atomic::AtomicU64 = std::sync::atomic::AtomicU64::new(0);

fn mode_alloc(out: &mut Out, listfile: &str) -> io::Result<()> {
    for (i, path) in read_lines(listfile).into_iter().enumerate() {
        // Read the input first (not measured) ...
        let data = std::fs::read(&path);
        // ... and announce the block BEFORE measuring, so that an abort
        // (allocation failure, OOM kill) is attributable to this input.
        begin(out, i)?;
        let data = match data {
            Ok(d) => d,
            Err(e) => {
                out.write_all(unreadable(&path, &e).as_bytes())?;
                end(out, i)?;
                continue;
            }
        };
        let input_len = data.len();
        // All inputs are measured one after the other on the driver's shared worker thread.  What a load leaves
        // allocated after its result has been dropped (a thread-local scratch buffer, a cache, a leak) is still live
        // library heap during every later load: it is carried over and added to the peak of the loads that follow.
        let carried = CARRIED.load(Ordering::SeqCst);
        let measured = on_shared_worker(move || {
            alloc_reset(); // baseline: live = 0
            ENABLED.store(true, Ordering::SeqCst);
            let r = std::panic::catch_unwind(|| AsepriteFile::read(&data[..]));
            // the peak while loading (the loaded file is still alive here)
            let mut stats = alloc_stats();
            let (code, comment) = match &r {
                Ok(Ok(_)) => (0, None),
                Ok(Err(e)) => (error_code(e), Some(one_line(&e.to_string()))),
                Err(_) => (9, Some(format!("panic: {}", last_panic_line()))),
            };
            drop(r);
            ENABLED.store(false, Ordering::SeqCst);
            let retained = alloc_live_now();
            stats.peak_live += carried;
            if retained > 65536 {
                CARRIED.fetch_add(retained, Ordering::SeqCst);
            }
            (code, comment, stats)
        });
        match measured {
            Ok((code, comment, st)) => {
                writeln!(out, "1 {}", code)?;
                if let Some(c) = comment {
                    writeln!(out, "# {}", c)?;
                }
                // 40 input_len peak_live largest_request total_requested num_allocs
                writeln!(
                    out,
                    "40 {} {} {} {} {}",
                    input_len, st.peak_live, st.largest_request, st.total_requested, st.num_allocs
                )?;
            }
            Err(msg) => {
                // Cannot normally happen (the load is inside catch_unwind).
                ENABLED.store(false, Ordering::SeqCst);
                write!(out, "1 9\n# panic: {}\n", msg)?;
            }
        }
        // The same input through the path-based entry point, measured the same way:
        // 41 code input_len peak_live largest_request
        let path2 = path.clone();
        let measured2 = on_shared_worker(move || {
            alloc_reset();
            ENABLED.store(true, Ordering::SeqCst);
            let r = std::panic::catch_unwind(|| AsepriteFile::read_file(std::path::Path::new(&path2)));
            let stats = alloc_stats();
            let code = match &r {
                Ok(Ok(_)) => 0,
                Ok(Err(e)) => error_code(e),
                Err(_) => 9,
            };
            drop(r);
            ENABLED.store(false, Ordering::SeqCst);
            (code, stats)
        });
        match measured2 {
            Ok((code, st)) => writeln!(out, "41 {} {} {} {}", code, input_len, st.peak_live, st.largest_request)?,
            Err(msg) => {
                ENABLED.store(false, Ordering::SeqCst);
                write!(out, "41 9 {} 0 0\n# panic in read_file: {}\n", input_len, msg)?;
            }
        }
        end(out, i)?;
    }
    Ok(())
}

// ===========================================================================
// threads
// ===========================================================================

const NUM_THREADS: usize = 16;

fn mode_threads(out: &mut Out, opts: &ObsOpts, listfile: &str) -> io::Result<()> {
    for (i, path) in read_lines(listfile).into_iter().enumerate() {
        begin(out, i)?;
        let opts = *opts;
        // `printed` is shared with the worker so that the lines produced before
        // a panic (the outcome line) are not lost.
        let printed = Arc::new(std::sync::Mutex::new(String::new()));
        let printed_w = Arc::clone(&printed);
        let result = on_worker(move || {
            let emit = |s: &str| printed_w.lock().unwrap().push_str(s);
            let data = match std::fs::read(&path) {
                Ok(d) => d,
                Err(e) => return emit(&unreadable(&path, &e)),
            };
            // A panic during the load is reported as `1 9`.
            let loaded = std::panic::catch_unwind(|| AsepriteFile::read(&data[..]));
            let file = match loaded {
                Err(_) => return emit(&format!("1 9\n# panic: {}\n", last_panic_line())),
                Ok(Err(e)) => return emit(&error_lines(&e)),
                Ok(Ok(f)) => f,
            };
            emit("1 0\n");

            // From here on any panic (in any thread) unwinds out of this
            // closure and is reported as `99 0`.
            let o0 = observe_file_rotated(&file, &opts, 0);

            // Same file, two more times.
            let repeat_ok = (0..2).all(|_| observe_file_rotated(&file, &opts, 0) == o0);

            // Same bytes loaded again: from the slice, one byte at a time, through a small
            // BufReader, and from the file itself (read_file).
            let same = |r: Result<AsepriteFile, AsepriteParseError>| match r {
                Ok(f2) => observe_file_rotated(&f2, &opts, 0) == o0,
                Err(_) => false,
            };
            let reload_parts = [
                same(AsepriteFile::read(&data[..])),
                same(AsepriteFile::read(OneByteReader { data: &data, pos: 0 })),
                same(AsepriteFile::read(BufReader::with_capacity(7, Cursor::new(data.clone())))),
                same(AsepriteFile::read_file(Path::new(&path))),
            ];
            let reload_ok = reload_parts.iter().all(|b| *b);
            if !reload_ok {
                emit(&format!("# reload (slice, one byte at a time, BufReader(7), read_file): {:?}\n", reload_parts));
            }

            // Same bytes loaded a third time; before the canonical observation every image-producing
            // accessor is called once in the opposite order (last frame / last layer / last tileset
            // first), so that any state carried from one call to the next shows up.
            let scramble_ok = match AsepriteFile::read(&data[..]) {
                Ok(f3) => {
                    for ts in f3.tilesets().iter() {
                        let _ = ts.image();
                    }
                    for f in (0..f3.num_frames()).rev() {
                        for l in (0..f3.num_layers()).rev() {
                            let _ = f3.cel(f, l).image();
                            let _ = f3.tilemap(l, f).map(|t| t.image());
                        }
                        let _ = f3.frame(f).image();
                    }
                    observe_file_rotated(&f3, &opts, 3) == o0
                }
                Err(_) => false,
            };

            // 16 threads share `&file`; thread t rotates the section order by t.
            let barrier = Barrier::new(NUM_THREADS);
            let texts: Vec<std::thread::Result<String>> = std::thread::scope(|scope| {
                let handles: Vec<_> = (0..NUM_THREADS)
                    .map(|t| {
                        let (file, opts, barrier) = (&file, &opts, &barrier);
                        std::thread::Builder::new()
                            .stack_size(WORKER_STACK)
                            .spawn_scoped(scope, move || {
                                barrier.wait(); // start together
                                observe_file_rotated(file, opts, t)
                            })
                            .expect("cannot spawn scoped thread")
                    })
                    .collect();
                handles.into_iter().map(|h| h.join()).collect()
            });
            let mut threads_ok = true;
            for t in texts {
                match t {
                    Ok(text) => threads_ok &= text == o0,
                    // re-raise: reported as `99 0` below
                    Err(payload) => std::panic::resume_unwind(payload),
                }
            }

            // Cold start: a freshly loaded sprite whose very first accessor calls come from 16
            // threads at once (anything built lazily on first use is built under contention).
            for _round in 0..2 {
                let fresh = match AsepriteFile::read(&data[..]) {
                    Ok(f) => f,
                    Err(_) => {
                        threads_ok = false;
                        break;
                    }
                };
                let barrier = Barrier::new(NUM_THREADS);
                let texts: Vec<std::thread::Result<String>> = std::thread::scope(|scope| {
                    let handles: Vec<_> = (0..NUM_THREADS)
                        .map(|t| {
                            let (file, opts, barrier) = (&fresh, &opts, &barrier);
                            std::thread::Builder::new()
                                .stack_size(WORKER_STACK)
                                .spawn_scoped(scope, move || {
                                    barrier.wait();
                                    // half of the threads start with the tile / cel sections
                                    observe_file_rotated(file, opts, if t % 2 == 0 { 2 } else { 3 })
                                })
                                .expect("cannot spawn scoped thread")
                        })
                        .collect();
                    handles.into_iter().map(|h| h.join()).collect()
                });
                for t in texts {
                    match t {
                        Ok(text) => threads_ok &= text == o0,
                        Err(payload) => std::panic::resume_unwind(payload),
                    }
                }
            }

            let (h1, h2) = hash_halves(&o0);
            emit(&format!(
                "50 {} {} {} {}\n51 {} {}\n52 {}\n",
                repeat_ok as u32, reload_ok as u32, threads_ok as u32, NUM_THREADS, h1, h2, scramble_ok as u32
            ));
        });
        let text = printed.lock().unwrap_or_else(|e| e.into_inner()).clone();
        out.write_all(text.as_bytes())?;
        if let Err(msg) = result {
            write!(out, "99 0\n# panic: {}\n", msg)?;
        }
        end(out, i)?;
    }
    Ok(())
}

// ===========================================================================
// util
// ===========================================================================

/// Load `path` and build the palette mapper for `M` / `I` cases.  `None` when
/// the file does not load or has no palette (-> line `68`).
fn with_mapper<T>(
    path: &str,
    failure: i64,
    transparent: i64,
    f: impl FnOnce(&PaletteMapper) -> T,
) -> Option<T> {
    let data = std::fs::read(path).ok()?;
    let file = AsepriteFile::read(&data[..]).ok()?;
    let palette = file.palette()?;
    // Another mapper over the SAME palette, with other options, is created and used first and stays alive: what one
    // mapper answers must not depend on mappers made from the palette before it.
    let earlier = PaletteMapper::new(
        palette,
        MappingOptions {
            failure: (failure as u8) ^ 0x5a,
            transparent: if transparent == -1 { Some(0x33) } else { None },
        },
    );
    let _ = earlier.lookup(1, 2, 3, 255);
    let mapper = PaletteMapper::new(
        palette,
        MappingOptions {
            failure: failure as u8,
            transparent: if transparent == -1 {
                None
            } else {
                Some(transparent as u8)
            },
        },
    );
    let r = f(&mapper);
    drop(earlier);
    Some(r)
}

/// Build a `w` x `h` image from exactly-packed pixels.
fn image_from_packed(w: u32, h: u32, px: &[i64]) -> RgbaImage {
    let mut raw = Vec::with_capacity(px.len() * 4);
    for &p in px {
        raw.extend_from_slice(&unpack_exact(p as u32).0);
    }
    RgbaImage::from_raw(w, h, raw).expect("harness: pixel count was checked")
}

/// One `util` case -> its result line (without newline).  `Err(())` = the
/// case line is malformed.
fn util_case(words: &[&str]) -> Result<String, ()> {
    let int = |k: usize| -> Result<i64, ()> {
        words.get(k).ok_or(())?.parse::<i64>().map_err(|_| ())
    };
    let ints_from = |k: usize| -> Result<Vec<i64>, ()> {
        words[k.min(words.len())..]
            .iter()
            .map(|s| s.parse::<i64>().map_err(|_| ()))
            .collect()
    };
    match *words.first().ok_or(())? {
        // E w h p0 ... -> 60 w2 h2 q0 ...
        "E" => {
            let (w, h) = (int(1)? as u32, int(2)? as u32);
            let px = ints_from(3)?;
            if px.len() as u64 != w as u64 * h as u64 {
                return Err(());
            }
            let img = extrude_border(image_from_packed(w, h, &px));
            let mut s = format!("60 {} {}", img.width(), img.height());
            for p in img.pixels() {
                s.push_str(&format!(" {}", pack_exact(p)));
            }
            Ok(s)
        }
        // M path failure transparent q r g b a ... -> 61 idx ...
        "M" => {
            let path = *words.get(1).ok_or(())?;
            let (failure, transparent, q) = (int(2)?, int(3)?, int(4)?);
            let comps = ints_from(5)?;
            if q < 0 || comps.len() as u64 != 4 * q as u64 {
                return Err(());
            }
            let r = with_mapper(path, failure, transparent, |m| {
                let mut s = String::from("61");
                for c in comps.chunks_exact(4) {
                    let idx = m.lookup(c[0] as u8, c[1] as u8, c[2] as u8, c[3] as u8);
                    s.push_str(&format!(" {}", idx));
                }
                s
            });
            Ok(r.unwrap_or_else(|| "68".to_string()))
        }
        // EP w h pad p0 ... : like E, but the image's backing buffer carries `pad` extra bytes after
        // the w * h pixels (ImageBuffer::from_raw accepts any container that is large enough)
        "EP" => {
            let (w, h, pad) = (int(1)? as u32, int(2)? as u32, int(3)? as usize);
            let px = ints_from(4)?;
            if px.len() as u64 != w as u64 * h as u64 {
                return Err(());
            }
            let mut raw = image_from_packed(w, h, &px).into_raw();
            raw.extend(std::iter::repeat(0xEEu8).take(pad));
            let src = RgbaImage::from_raw(w, h, raw).expect("harness: the container is large enough");
            let img = extrude_border(src);
            let mut s = format!("60 {} {}", img.width(), img.height());
            for p in img.pixels() {
                s.push_str(&format!(" {}", pack_exact(p)));
            }
            Ok(s)
        }
        // I path failure transparent w h p0 ... -> 62 w h idx ...
        "I" => {
            let path = *words.get(1).ok_or(())?;
            let (failure, transparent) = (int(2)?, int(3)?);
            let (w, h) = (int(4)? as u32, int(5)? as u32);
            let px = ints_from(6)?;
            if px.len() as u64 != w as u64 * h as u64 {
                return Err(());
            }
            let r = with_mapper(path, failure, transparent, |m| {
                let ((w2, h2), data) = to_indexed_image(image_from_packed(w, h, &px), m);
                let mut s = format!("62 {} {}", w2, h2);
                for idx in data {
                    s.push_str(&format!(" {}", idx));
                }
                s
            });
            Ok(r.unwrap_or_else(|| "68".to_string()))
        }
        // IP path failure transparent w h pad p0 ... : like I, over an image container with `pad` extra bytes
        "IP" => {
            let path = *words.get(1).ok_or(())?;
            let (failure, transparent) = (int(2)?, int(3)?);
            let (w, h, pad) = (int(4)? as u32, int(5)? as u32, int(6)? as usize);
            let px = ints_from(7)?;
            if px.len() as u64 != w as u64 * h as u64 {
                return Err(());
            }
            let r = with_mapper(path, failure, transparent, |m| {
                let mut raw = image_from_packed(w, h, &px).into_raw();
                raw.extend(std::iter::repeat(0xEEu8).take(pad));
                let src = RgbaImage::from_raw(w, h, raw).expect("harness: the container is large enough");
                let ((w2, h2), data) = to_indexed_image(src, m);
                let mut s = format!("62 {} {}", w2, h2);
                for idx in data {
                    s.push_str(&format!(" {}", idx));
                }
                s
            });
            Ok(r.unwrap_or_else(|| "68".to_string()))
        }
        _ => Err(()),
    }
}

fn mode_util(out: &mut Out, casefile: &str) -> io::Result<()> {
    for (i, line) in read_lines(casefile).into_iter().enumerate() {
        begin(out, i)?;
        let result = on_worker(move || {
            let words: Vec<&str> = line.split_whitespace().collect();
            util_case(&words)
        });
        match result {
            Ok(Ok(text)) => writeln!(out, "{}", text)?,
            Ok(Err(())) => write!(out, "# harness: malformed util case\n68\n")?,
            Err(msg) => write!(out, "69\n# panic: {}\n", msg)?,
        }
        end(out, i)?;
    }
    Ok(())
}
