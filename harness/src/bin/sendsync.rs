//! Compile-time check that `AsepriteFile` is `Send + Sync`: this binary only
//! builds when the bound holds.
fn a<T: Send + Sync>() {}

fn main() {
    a::<asefile::AsepriteFile>();
    println!("ok");
}
