//! `zoracle`: zlib inflate oracle built on the same `flate2` as `asefile`.
//!
//! Long-running co-process.  Request on stdin:
//!
//!     <limit> <len>\n        ASCII header, limit = -1 means "unlimited"
//!     <len raw bytes>
//!
//! Computation:
//!
//!     let mut out = Vec::new();
//!     ZlibDecoder::new(&bytes[..]).take(limit as u64).read_to_end(&mut out)
//!     (without the `take` when limit = -1)
//!
//! Answer on stdout (flushed after every answer):
//!
//!     OK <n>\n<n raw bytes>       on Ok
//!     ERR <iokind-code>\n         on Err (codes: see README.md)
//!
//! EOF on stdin (at a request boundary) -> exit 0.  A malformed header or a
//! truncated body -> message on stderr, exit 1.

use std::io::{self, BufRead, Read, Write};

use asefile_harness::iokind_code;
use flate2::read::ZlibDecoder;

fn main() {
    let stdin = io::stdin();
    let mut input = stdin.lock();
    let stdout = io::stdout();
    let mut output = io::BufWriter::new(stdout.lock());

    loop {
        // ---- header line ----
        let mut header = Vec::new();
        match input.read_until(b'\n', &mut header) {
            Ok(0) => return, // EOF: normal termination
            Ok(_) => {}
            Err(e) => fail(&format!("cannot read header: {}", e)),
        }
        let header = String::from_utf8_lossy(&header).into_owned();
        let mut words = header.split_whitespace();
        let limit: i64 = match words.next().and_then(|w| w.parse().ok()) {
            Some(v) => v,
            None => fail(&format!("bad header {:?}", header)),
        };
        let len: usize = match words.next().and_then(|w| w.parse().ok()) {
            Some(v) => v,
            None => fail(&format!("bad header {:?}", header)),
        };

        // ---- body ----
        let mut bytes = vec![0u8; len];
        if let Err(e) = input.read_exact(&mut bytes) {
            fail(&format!("cannot read {} body bytes: {}", len, e));
        }

        // ---- inflate ----
        let mut out = Vec::new();
        let r = if limit < 0 {
            ZlibDecoder::new(&bytes[..]).read_to_end(&mut out)
        } else {
            ZlibDecoder::new(&bytes[..])
                .take(limit as u64)
                .read_to_end(&mut out)
        };

        // ---- answer ----
        let w = match r {
            Ok(_) => writeln!(output, "OK {}", out.len()).and_then(|_| output.write_all(&out)),
            Err(e) => writeln!(output, "ERR {}", iokind_code(e.kind())),
        };
        if w.and_then(|_| output.flush()).is_err() {
            // the peer went away
            std::process::exit(1);
        }
    }
}

fn fail(msg: &str) -> ! {
    eprintln!("zoracle: {}", msg);
    std::process::exit(1)
}
