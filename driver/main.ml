(* model_driver: runs the extracted Coq model (model.ml) and prints observations in the
   format of tools/SCHEMA.md.  Glue only: integer conversion, file reading, the pipe to the
   inflate oracle, printing. *)
open Model

let rec pos_of_int n = if n = 1 then XH else if n land 1 = 1 then XI (pos_of_int (n lsr 1)) else XO (pos_of_int (n lsr 1))
let z_of_int n = if n = 0 then Z0 else if n > 0 then Zpos (pos_of_int n) else Zneg (pos_of_int (- n))
let rec int_of_pos = function XH -> 1 | XO p -> 2 * int_of_pos p | XI p -> 2 * int_of_pos p + 1
let int_of_z = function Z0 -> 0 | Zpos p -> int_of_pos p | Zneg p -> - (int_of_pos p)

(* small-value cache for bytes *)
let byte_z = Array.init 256 z_of_int
let zlist_of_string (s : string) : z list =
  let r = ref [] in
  for i = String.length s - 1 downto 0 do r := byte_z.(Char.code s.[i]) :: !r done; !r
let zlist_of_bytes_sub (b : Bytes.t) (n : int) : z list =
  let r = ref [] in
  for i = n - 1 downto 0 do r := byte_z.(Char.code (Bytes.get b i)) :: !r done; !r

let read_file path =
  let ic = open_in_bin path in
  let n = in_channel_length ic in
  let s = really_input_string ic n in
  close_in ic; s

(* ---------------- inflate oracle ---------------- *)
let oracle : (in_channel * out_channel) option ref = ref None
let oracle_path () = try Sys.getenv "VERIF_ZORACLE" with Not_found -> "/verif/.build/cargo/release/zoracle"
let get_oracle () =
  match !oracle with
  | Some p -> p
  | None -> let p = Unix.open_process (oracle_path ()) in oracle := Some p; p

let inflate (payload : z list) (limit : z) : zres =
  let (ic, oc) = get_oracle () in
  let n = List.length payload in
  let b = Bytes.create n in
  List.iteri (fun i v -> Bytes.set b i (Char.chr (int_of_z v))) payload;
  Printf.fprintf oc "%d %d\n" (int_of_z limit) n;
  output_bytes oc b; flush oc;
  let header = input_line ic in
  match String.split_on_char ' ' header with
  | ["OK"; m] ->
      let m = int_of_string m in
      let out = Bytes.create m in
      really_input ic out 0 m;
      ZOk (zlist_of_bytes_sub out m)
  | ["ERR"; k] -> ZErr (z_of_int (int_of_string k))
  | _ -> failwith ("model_driver: bad oracle answer " ^ header)

(* ---------------- printing ---------------- *)
let buf_line (b : Buffer.t) (l : z list) =
  let first = ref true in
  List.iter (fun v -> if !first then first := false else Buffer.add_char b ' ';
                      Buffer.add_string b (string_of_int (int_of_z v))) l;
  Buffer.add_char b '\n'

let read_lines path =
  let ic = open_in path in
  let r = ref [] in
  (try while true do let l = String.trim (input_line ic) in if l <> "" then r := l :: !r done with End_of_file -> ());
  close_in ic; List.rev !r

let sections = [1; 2; 4; 8]

(* text of the sections selected by level; a Panic in a section prints 99 bit and stops *)
let observation_text (f : file) (o : obsopts) (level : int) : string =
  let b = Buffer.create 65536 in
  (try
     List.iter (fun bit ->
         if level land bit <> 0 then
           match section f o (z_of_int bit) with
           | Ok ls -> List.iter (buf_line b) ls
           | _ -> Buffer.add_string b (Printf.sprintf "99 %d\n" bit); raise Exit)
       sections
   with Exit -> ());
  Buffer.contents b

let fnv1a64 (s : string) : int64 =
  let h = ref 0xcbf29ce484222325L in
  String.iter (fun c -> h := Int64.mul (Int64.logxor !h (Int64.of_int (Char.code c))) 0x100000001b3L) s;
  !h
let hash_halves s =
  let h = fnv1a64 s in
  (Int64.to_int (Int64.shift_right_logical h 32), Int64.to_int (Int64.logand h 0xffffffffL))

let outcome_code (r : 'a res) : int =
  match r with Ok _ -> 0 | Err e -> int_of_z (err_code e) | Panic _ -> 9

let print_fail (r : 'a res) =
  (match r with
   | Panic s -> Printf.printf "1 9\n# model panic site %d\n" (int_of_z s)
   | Err e -> Printf.printf "1 %d\n" (int_of_z (err_code e));
       (match e with EIo k -> Printf.printf "30 %d 1 %d\n" (int_of_z k) (int_of_z k) | _ -> ())
   | Ok _ -> ())

let opt_z = function None -> None | Some n -> Some (z_of_int n)

let mode_observe level max_frames max_layers listfile =
  let o = { o_max_frames = opt_z max_frames; o_max_layers = opt_z max_layers } in
  List.iteri (fun i path ->
      Printf.printf "#BEGIN %d\n%!" i;
      (try
         let data = zlist_of_string (read_file path) in
         (match load inflate data with
          | Ok f -> print_string "1 0\n"; print_string (observation_text f o level)
          | Panic s -> Printf.printf "1 9\n# model panic site %d\n" (int_of_z s)
          | Err e -> Printf.printf "1 %d\n" (int_of_z (err_code e)))
       with Stack_overflow -> print_string "# model_driver: stack overflow\n1 77\n"
          | Out_of_memory -> print_string "# model_driver: out of memory\n1 78\n");
      Printf.printf "#END %d\n%!" i)
    (read_lines listfile)

(* xorshift64* of the implementation driver's ChunkReader *)
let xs_next (st : int64 ref) : int64 =
  let x = !st in
  let x = Int64.logxor x (Int64.shift_right_logical x 12) in
  let x = Int64.logxor x (Int64.shift_left x 25) in
  let x = Int64.logxor x (Int64.shift_right_logical x 27) in
  st := x;
  Int64.mul x 0x2545F4914F6CDD1DL

let chunk_schedule seed maxlen intr n : ev list =
  let st = ref (if seed = 0L then 0x9E3779B97F4A7C15L else seed) in
  let maxlen = if maxlen < 1 then 1 else maxlen in
  let r = ref [] in
  for _ = 1 to n do
    if intr then r := Intr :: !r;
    let v = Int64.unsigned_rem (xs_next st) (Int64.of_int maxlen) in
    r := Short (pos_of_int (1 + Int64.to_int v)) :: !r
  done;
  List.rev !r

let mode_sched casefile =
  List.iteri (fun i line ->
      Printf.printf "#BEGIN %d\n%!" i;
      let words = List.filter (fun w -> w <> "") (String.split_on_char ' ' line) in
      (match words with
       | path :: kind :: args ->
           let raw = read_file path in
           let data = zlist_of_string raw in
           let n = String.length raw in
           let arg k = Int64.of_string (List.nth args k) in
           let r =
             match kind with
             | "one" -> run_sched_load inflate data (List.init (n + 8) (fun _ -> Short XH))
             | "chunks" -> run_sched_load inflate data (chunk_schedule (arg 0) (Int64.to_int (arg 1)) false (n + 8))
             | "intr" -> run_sched_load inflate data (chunk_schedule (arg 0) (Int64.to_int (arg 1)) true (n + 8))
             | "hard" | "once" -> let lim = min (Int64.to_int (arg 0)) n in
                         run_fault_load inflate data (z_of_int lim) (z_of_int (Int64.to_int (arg 1)))
             | _ -> load inflate data in
           (match r with
            | Ok f ->
                let o = { o_max_frames = None; o_max_layers = None } in
                let (h1, h2) = hash_halves (observation_text f o 3) in
                Printf.printf "1 0\n31 %d %d\n" h1 h2
            | _ -> print_fail r)
       | _ -> print_string "# malformed case\n");
      Printf.printf "#END %d\n%!" i)
    (read_lines casefile)

(* util cases: E w h p0.. / M path failure transparent q r g b a .. / I path failure transparent w h p0 .. *)
let unpack (v : int) : pixel =
  (((byte_z.(v land 255), byte_z.((v lsr 8) land 255)), byte_z.((v lsr 16) land 255)), byte_z.((v lsr 24) land 255))
let pack (p : pixel) : int =
  let (((r, g), b), a) = p in int_of_z r lor (int_of_z g lsl 8) lor (int_of_z b lsl 16) lor (int_of_z a lsl 24)

let palette_entries path : (z * pixel) list option =
  match load inflate (zlist_of_string (read_file path)) with
  | Ok f -> (match f.f_palette with
             | Some p -> Some (List.map (fun (k, e) -> (k, e.pe_rgba)) (zelements p))
             | None -> None)
  | _ -> None

let mode_util casefile =
  List.iteri (fun i line ->
      Printf.printf "#BEGIN %d\n%!" i;
      let words = List.filter (fun w -> w <> "") (String.split_on_char ' ' line) in
      let words = (match words with
                   | "EP" :: w :: h :: _pad :: px -> "E" :: w :: h :: px
                   | "IP" :: path :: failure :: transparent :: w :: h :: _pad :: px -> "I" :: path :: failure :: transparent :: w :: h :: px
                   | _ -> words) in
      (match words with
       | "E" :: w :: h :: px ->
           let img = { uw = z_of_int (int_of_string w); uh = z_of_int (int_of_string h);
                       upx = List.map (fun s -> unpack (int_of_string s)) px } in
           (match extrude_border img with
            | Some r -> Printf.printf "60 %d %d" (int_of_z r.uw) (int_of_z r.uh);
                        List.iter (fun p -> Printf.printf " %d" (pack p)) r.upx; print_newline ()
            | None -> print_string "69\n")
       | "M" :: path :: failure :: transparent :: _q :: comps ->
           (match palette_entries path with
            | None -> print_string "68\n"
            | Some es ->
                let tr = int_of_string transparent in
                let m = mapper_new es (z_of_int (int_of_string failure)) (if tr = -1 then None else Some (z_of_int tr)) in
                let rec go = function
                  | r :: g :: b :: a :: rest ->
                      Printf.printf " %d" (int_of_z (mapper_lookup m (z_of_int (int_of_string r)) (z_of_int (int_of_string g))
                                                       (z_of_int (int_of_string b)) (z_of_int (int_of_string a))));
                      go rest
                  | _ -> () in
                print_string "61"; go comps; print_newline ())
       | "I" :: path :: failure :: transparent :: w :: h :: px ->
           (match palette_entries path with
            | None -> print_string "68\n"
            | Some es ->
                let tr = int_of_string transparent in
                let m = mapper_new es (z_of_int (int_of_string failure)) (if tr = -1 then None else Some (z_of_int tr)) in
                let img = { uw = z_of_int (int_of_string w); uh = z_of_int (int_of_string h);
                            upx = List.map (fun s -> unpack (int_of_string s)) px } in
                let ((w2, h2), data) = to_indexed img m in
                Printf.printf "62 %d %d" (int_of_z w2) (int_of_z h2);
                List.iter (fun v -> Printf.printf " %d" (int_of_z v)) data; print_newline ())
       | _ -> print_string "# malformed util case\n68\n");
      Printf.printf "#END %d\n%!" i)
    (read_lines casefile)

(* blend cases: one per line `mode br bg bb ba sr sg sb sa opacity` -> `70 r g b a` or `79` (model None) *)
let mode_blend casefile =
  let ic = open_in casefile in
  (try
     while true do
       let line = input_line ic in
       match List.filter (fun w -> w <> "") (String.split_on_char ' ' line) with
       | [m; br; bg; bb; ba; sr; sg; sb; sa; op] ->
           let z s = z_of_int (int_of_string s) in
           (match blend (z m) (((z br, z bg), z bb), z ba) (((z sr, z sg), z sb), z sa) (z op) with
            | Some (((r, g), b), a) -> Printf.printf "70 %d %d %d %d\n" (int_of_z r) (int_of_z g) (int_of_z b) (int_of_z a)
            | None -> print_string "79\n")
       | _ -> ()
     done
   with End_of_file -> ());
  close_in ic

(* blendref cases: one per line `mode bpacked spacked opacity` -> `71 packed guard ok` (AseRef result, -1 when undefined;
   guard = hsl_guard, ok = hsl_ok for modes 12..15, 1 otherwise) *)
let mode_blendref casefile =
  let ic = open_in casefile in
  let ob = Buffer.create 65536 in
  (try
     while true do
       let line = input_line ic in
       match List.filter (fun w -> w <> "") (String.split_on_char ' ' line) with
       | [m; b; s; op] ->
           let mi = int_of_string m in
           let bz = z_of_int (int_of_string b) and sz = z_of_int (int_of_string s) in
           let r = match ref_blend_n (z_of_int mi) bz sz (z_of_int (int_of_string op)) with
             | Some c -> int_of_z c | None -> -1 in
           let (g, k) =
             if mi >= 12 && mi <= 15 then
               let bp = unpack (int_of_string b) and sp = unpack (int_of_string s) in
               ((if ref_hsl_guard (z_of_int mi) bp sp then 1 else 0), (if ref_hsl_ok (z_of_int mi) bp sp then 1 else 0))
             else (1, 1) in
           Buffer.add_string ob (Printf.sprintf "71 %d %d %d\n" r g k)
       | _ -> ()
     done
   with End_of_file -> ());
  close_in ic;
  print_string (Buffer.contents ob)

let () =
  let args = Array.to_list Sys.argv in
  match args with
  | _ :: "observe" :: rest ->
      let level = ref 1 and mf = ref None and ml = ref None and file = ref "" in
      let rec go = function
        | "--level" :: v :: r -> level := int_of_string v; go r
        | "--max-frames" :: v :: r -> mf := Some (int_of_string v); go r
        | "--max-layers" :: v :: r -> ml := Some (int_of_string v); go r
        | f :: r -> file := f; go r
        | [] -> () in
      go rest; mode_observe !level !mf !ml !file
  | _ :: "sched" :: f :: _ -> mode_sched f
  | _ :: "util" :: f :: _ -> mode_util f
  | _ :: "blend" :: f :: _ -> mode_blend f
  | _ :: "blendref" :: f :: _ -> mode_blendref f
  | _ -> prerr_endline "usage: model_driver observe|sched|util|blend ..."; exit 2
